"""Per-property configuration of the check engine."""
import c09 as _c09

TRUSTED_BASE = [
    "Lean 4.33.0 kernel (lake build); leanchecker re-check in the thorough tier where configured",
    "axioms: only those printed under coverage.axioms_used (allow-list propext, Classical.choice, Quot.sound)",
    "hand-written Lean model of the jubako code paths named in DESIGN.md §6 (modelled, not verified: the theorems are about the model)",
    "correspondence harness (Rust, in-process calls into /repo built from the working tree with --cfg jubako_verif), its generators and canonicalisation, and the line diff of tools/engine.py",
    "tools/extract_consts.py (regex extraction of constants into Generated/Consts.lean), tools/extract_layouts.py (field layouts), tools/extract_funcs.py + tools/rs2lean.py (Rust-fragment to Lean translation of small pure function bodies: Nat arithmetic, truncated subtraction, wrap-around only at `as uN` casts, `?`/newtype wrappers erased)",
]

PROPS = {
    "C13": {
        "theorems": "JubakoModel.Theorems.C13",
        "harness": "c13",
        "profiles": ["debug"],
        "rule": "one case = one stored content that does NOT start at offset 0 of its source (memory / file behind a 1 KiB BufReader / background-decoded lz4, lzma, zstd), driven through a seeded script of nested cuts (depth <= 3), get_slice sub-ranges (all (offset,size) pairs for the small content of round 0), stream(), as_slice().stream(), From<ByteRegion> for ByteStream and reads with arbitrary buffer sizes until EOF; non-trivial = non-empty content at a non-zero source offset; distinct = distinct (source bytes, region, script) fingerprint",
        "assumptions": [
            "out-of-range cuts are outside the property (debug_assert in the code) and are not issued",
            "the model receives the logical source bytes (whole pack file for raw clusters, concatenated contents for compressed clusters) and the absolute region computed by the harness from the insertion sizes",
            "mmap-backed sources are not reachable for content views through the public API (tables only); covered by C01/C14 runs on large tables",
        ],
    },
    "C04": {
        "theorems": "JubakoModel.Theorems.C04",
        "harness": "c04",
        "profiles": ["debug"],
        "rule": "one case = one created container (packaging x compression, seeded contents) with, for every pack of every file: pristine verdicts (per pack, per file, container-wide), every byte position of [0, checkInfoPos+37) x masks {01,80,FF} on the small containers (sampled positions x {01,FF} on larger ones), multi-byte alterations, and CRC-recomputed alterations in pack header / kind header / pack-info checked part / pack-info location / stored hash; non-trivial = at least one alteration evaluated; distinct = distinct container spec",
        "assumptions": [
            "blake3 is a parameter of the theorems (explicit-collision disjunct); the driver's own blake3 is cross-checked against the blake3 crate on every pack (op b3)",
            "verdicts are compared as true / not-true (error kinds of damaged files are compared by C05/C06)",
            "forged check blocks (kind byte downgraded to 'none' or hash replaced by the hash of the altered content, with the CRC recomputed) are deliberate re-checksumming, outside the property",
        ],
    },
    "C01": {
        "theorems": "JubakoModel.Theorems.C01",
        "harness": "c01",
        "sig_exclude": "^c16-",
        "profiles": ["debug"],
        "rule": "one case = one content pack built from a seeded insertion sequence (kinds: empty pack, 4095-blob split, 4 MiB compressed-cluster split, data sizes at the 1/2/3-byte offset-width boundaries, incompressible data forced into compressed clusters, mixed sizes 0..200 KB with duplicates) x compression {none, lz4 l, lzma l, zstd l} x hints {yes,no,detect} x sources {memory, file, file sub-range} x dedup adder on/off x packaging {bare creator, BasicCreator one/two/no-concat}; every address is read back through the public reader, the pack is decoded by the Lean decoder and re-encoded by the Lean creator model byte for byte; non-trivial = at least one content; distinct = distinct (config, contents) fingerprint",
        "assumptions": [
            "codecs are a parameter of the theorems (hypothesis: decompress (compress d) = d); in the correspondence the harness decompresses cluster payloads with the lz4/xz2/zstd crates called directly (not through jubako) and hands the plain data to the Lean decoder",
            "the compression decision of hint Detect (f32 entropy) is read out of the produced file; the theorems quantify over it",
            "uuid, compressed payload bytes and cluster arrival order are read out of the produced file and fed to the Lean writer model",
            "sizes beyond 2^48 bytes / 2^20 clusters are hypotheses (unreachable at run time)",
        ],
    },
    "C12": {
        "theorems": "JubakoModel.Theorems.C12",
        "harness": "c12",
        "profiles": ["debug"],
        "rule": "one case = one history of 1..6 (quick) / 1..20 (thorough) tools::set_location calls on a created container: manifest standalone (NoConcat), inside a container pack (OneFile/TwoFiles, 0 or 2 extra content packs) or inside a re-concatenated container (manifest at another offset); targets = listed packs and unknown uuids; locations of 0..213 bytes incl. the 212/213 boundary and multi-byte UTF-8; after every step: result, file diff confined to bytes [38,256) of the target pack-info block, manifest re-opened, all pack infos compared, manifest check, (one-file) full logical dump; the Lean setLocationAt applied to the same bytes must give the identical file; non-trivial = at least one step rewrote a listed pack",
        "assumptions": [
            "locations longer than 213 bytes are outside the property (the library panics on them: assert in PString serialisation)",
            "UTF-8 validity of locations is not modelled (byte strings); the harness only writes valid UTF-8",
        ],
    },
    "C16": {
        "theorems": "JubakoModel.Theorems.C16",
        "harness": "c01",
        "sig_include": "^c16-|^address|^stored-count|^create|^codec-oracle|^framing|^process-died",
        "profiles": ["debug"],
        "rule": "same generator as C01 (insertion sequences mixing hints yes/no/detect x compression none/lz4/lzma/zstd x dedup adder on/off x packagings); per stored content the independent framing decoder reports the compression byte of its cluster and, for type 0, whether the bytes sit verbatim at the blob position; addresses returned by CachedContentAdder are compared with first-occurrence numbering; the Lean decoder reports the same compression bytes (cp.decode) and the Lean creator model reproduces the file (cp.encode); non-trivial = at least one content; distinct = distinct (config, contents) fingerprint",
        "assumptions": [
            "the decision for hint Detect is not part of the property; it is read out of the file",
            "dedup identity is blake3 equality in the code; the harness uses byte equality (a blake3 collision would show up as an address mismatch)",
        ],
    },
    "C08": {
        "theorems": "JubakoModel.Theorems.C08",
        "harness": "c08",
        "sig_exclude": "^c16-",
        "profiles": ["debug"],
        "rule": "one case = one content pack with many clusters (raw and compressed mixed; fewer, about as many, and more clusters than the back-pressure limit 2 x workers) created while every Progress callback (main thread, each worker, writer) sleeps a seeded duration, for worker counts 1,2,3,5,8,15 (quick) / 1..15 (thorough) set through the CPU affinity of the creating thread; after creation: every address read back, pack check, Progress event history replayed on the model's order constraints, writer completion order compared with the cluster order in the file, Lean layout for that arrival order compared byte for byte; non-trivial = at least one content; distinct = distinct (config, contents) fingerprint",
        "assumptions": [
            "the scheduler is an arbitrary interleaving of the atomic actions of Model/Pipeline.lean (channel send/receive, counter update under its mutex, writer step); OS-level blocking, thread start-up and panics inside threads are not modelled",
            "Progress callbacks are the only perturbation points (no hook in /repo is needed); finer interleavings inside a step are not forced",
            "wall-clock bound 300 s per pack as the observable for termination",
        ],
    },
    "C02": {
        "theorems": "JubakoModel.Theorems.C02",
        "harness": "c02",
        "profiles": ["debug"],
        "rule": "one case = one directory pack: seeded schema (0..4 common properties, 0..4 variants of unequal size, property kinds uint / sint / content address / array with inline prefix in {0,1,2,3,5,31} on plain or indexed value stores, shared or not), 0..300 (quick) / 0..3000 (thorough) entries with constant and varying columns, integers at every byte-width boundary and both signs, arrays at length-field and prefix boundaries incl. empty, duplicates; indexes: whole store, sub-range, empty window; plus hand-picked shapes (signed boundaries, variant ending in a constant column, empty variant, value-store tail beyond 65535 bytes, 255/256/65535/65536-byte arrays, store shared by two properties); every entry of every index is read back through Index/AnyBuilder/LazyEntry and compared with what was written (oracle), the pack is decoded by the Lean decoder (dp.decode) and re-encoded byte for byte by the Lean creator model (dp.encode); non-trivial = at least one entry; distinct = distinct spec fingerprint",
        "assumptions": [
            "creation through DirectoryPackCreator/EntryStore/BasicEntry::new_from_schema with one entry store per pack",
            "unrepresentable input in the generator: value-store tail beyond 65535 bytes (creation must fail); arrays beyond 2^24-1 bytes, names beyond 255 bytes and more than 255 properties are not generated",
            "deported integer properties (0xA/0xB) are never written by the creator; the Lean decoder implements them, the correspondence does not exercise them",
        ],
    },
    "C03": {
        "theorems": "JubakoModel.Theorems.C03",
        "harness": "c03",
        "profiles": ["debug"],
        "rule": "one case = one entry store declared sorted on 1..2 properties: array keys (inline prefix 0/1/2/3/31, plain or indexed store; key sets built around shared stems so that prefixes shorter, equal and longer than the inline prefix collide, alphabet {00,FF,'a','b'}, empty key), unsigned keys, signed keys, (unsigned, array) pairs; 1..400 (quick) / 1..4000 (thorough) unique keys inserted in shuffled order; whole-store and sub-range indexes; per index 12 (quick) / 40 (thorough) probes, 2/3 present and 1/3 perturbed keys, each looked up through RangeTrait::find with ordered()=true and =false; every 20th case duplicates a sort key (creation must fail); non-trivial = at least two entries; distinct = distinct spec fingerprint",
        "assumptions": [
            "the parallel unstable sort is abstracted to 'any order accepted by the code's own post-check' (c03_stored_order); a sort that never satisfies the check panics after 50 passes (creation failure)",
            "search is exercised through a custom CompareTrait built from public reader APIs (Array::cmp, as_unsigned, as_signed): PropertyCompare::ordered is always false in the library",
        ],
    },
    "C15": {
        "theorems": "JubakoModel.Theorems.C15",
        "harness": "c15",
        "profiles": ["debug"],
        "rule": "one case = one entry store of 0, 1, 2, ~256, 1500 (quick) / 5000 (thorough) or a random number of entries with a unique key and two reference properties bound (Vow/Bound/Word) to other entries: self, forward chain, backward chain, star and random graphs; sorted and unsorted stores; Bound::get() of every entry after finalize and both reference values of every stored entry compared with the final position of the (referenced) key; Lean decoder + byte-exact Lean re-encoding with the resolved positions; plus 8/60 directory packs with two or three entry stores registered one after the other and references across them in both directions (sizes around the 1-byte / 2-byte position boundary; a store sorted on a reference into a store registered later), oracle + Lean decoder; non-trivial = at least two entries",
        "assumptions": [
            "a sort key that is itself a deferred reference: only the stored VALUES and the handles are checked (final positions); the ORDER of such a store follows the positions the targets had when it was sorted (provisional ones if the target store is registered later) and is outside C15 and C03",
            "the parallel index assignment (rayon par_iter_mut) is modelled as one atomic set_entry_idx step; relaxed atomics are read only after the parallel section has joined",
        ],
    },
    "C10": {
        "theorems": "JubakoModel.Theorems.C10",
        "harness": "c10",
        "profiles": ["debug"],
        "rule": "one case = one logical container (1..6 (quick) / 1..12 (thorough) entries with names, numbers and contents over 1..3 content packs; compression none/zstd/lz4/lzma) written in the three packagings; per packaging: as created; re-assembled by tools::concat in every order of its files (all permutations up to 4 files; 4 sampled in quick); the concatenated file placed next to damaged copies of the separately located pack files (lookup order); one-file containers embedded after prefixes of 0/1/63/64/4096/random bytes; every arrangement dumped through reader::Container and by the Lean containerOpen; non-trivial = more than 3 arrangements",
        "assumptions": [
            "the file system is modelled as a flat directory of regular files; locations are plain relative file names (what BasicCreator records)",
            "HashMap iteration order of ContainerPack::packs only matters when a container holds two manifest packs, which the creator never produces",
        ],
    },
    "C11": {
        "theorems": "JubakoModel.Theorems.C11",
        "harness": "c11",
        "profiles": ["debug"],
        "rule": "one case = one container with 1..4 content packs of which 1..4 live in their own files (TwoFiles / NoConcat / OneFile + extra packs); for every subset of those files (all subsets; sampled beyond 8 in quick) each file of the subset is removed, replaced by a directory, or replaced by a valid content pack of another container; the container is dumped through reader::Container (contents of unavailable packs must read 'missing' with the pack's uuid and location) and checked, and dumped by the Lean containerOpen/containerGetPack; non-trivial = at least one separately located pack",
        "assumptions": [
            "a file that exists at the location but is not a Jubako pack at all makes locate return an error (not 'missing'); not in the property's quantifier and not generated",
        ],
    },
    "C05": {
        "theorems": "JubakoModel.Theorems.C05",
        "harness": "c06",
        "sig_include": "^c05-|^create|^pristine",
        "profiles": ["debug"],
        "rule": "one case = one base container (quick: one-file/none exhaustive, two-files/zstd, no-concat/lz4; thorough: 3 packagings x {none,zstd,lz4,lzma}; plus 1 (quick) / 3 (thorough) 'big tables' bases with 2300..2700 tiny contents so that the content pack's checked blocks exceed the reader's 4 KiB heap/mmap threshold) damaged, one file at a time, by: every byte position x masks {01,80,FF} (exhaustive on the small base, 150/600 sampled positions x {01,FF} otherwise), 25/120 zeroed or randomly overwritten ranges of 1..300 bytes, truncation at every length (exhaustive small, sampled + boundaries otherwise), appended garbage, and non-Jubako files of 0/1/59/60/63/64/100/4096 bytes; each damaged container is read by the full reader script (open, every entry and value, every content streamed, check) in a supervised worker; a returned value must have exactly the undamaged structure, and differing content bytes must make check() not true; a sample of the damaged directories is also read by the Lean reader (ct.read) and compared; non-trivial = at least one damaged variant read",
        "assumptions": [
            "a 32-bit CRC admits collisions: the unconditional theorem covers alterations confined to 4 consecutive bytes of a block; wider damage carries an explicit collision disjunct",
            "cluster payloads carry no CRC by design: only the integrity check (blake3) covers them",
        ],
    },
    "C06": {
        "theorems": "JubakoModel.Theorems.C06",
        "harness": "c06",
        "sig_include": "^c06-|^create|^pristine|^process-died",
        "profiles": ["debug", "release"],
        "rule": "same damaged-file families as C05, run with the harness and the library built in debug AND in release (the worker process is the same executable, so debug_assert and overflow checks follow the profile); each read runs in a supervised worker process with a 20 s wall-clock bound; outcome classes: value / error are accepted, panic (caught, with site), abort of the process (e.g. a panic inside the decompression pool), death by signal and timeout are failures attributed to the damaged file in flight; the Lean reader's outcome class (value+dump+check / error / crash) is compared on a sample; non-trivial = at least one damaged variant read",
        "assumptions": [
            "storage and transfer damage only: files whose blocks were re-checksummed by an adversary are outside the claim",
            "real SIGBUS/SIGSEGV, allocator aborts and OS-level blocking can only be exhibited by the runner, not by the model",
        ],
    },
    "C07": {
        "theorems": "JubakoModel.Theorems.C07",
        "harness": "c07",
        "profiles": ["debug"],
        "rule": "one case = one content pack of 45..85 compressed clusters (more than the 40 cache slots and the 8 pool threads; each cluster ~12 KB = 3..4 decode chunks) read concurrently by 2,3,4,8,16,32 threads x 60 (quick) / 200 (thorough) reads each (hot contents shared by all threads, neighbours, random; whole stream / partial get_slice / cut-and-stream), with the jubako_verif hooks sleeping or yielding seeded amounts at every schedule point; every third case damages compressed payloads so that decoders fail midway; oracle: bytes equal the inserted content (errors only on damaged clusters), termination within the bound; the event history of every shared decode buffer (publish / fail / wait / woke / slice, in global order) is replayed on the SyncVec transition system; non-trivial = at least one buffer history",
        "assumptions": [
            "Rust-level data-race freedom (raw-pointer read of [0,d) concurrent with read_to_end into spare capacity; the mutex as the only happens-before edge) is argued from sv_disjoint + 'publish happens under the lock after the write', it is not a Lean theorem; memory errors are outside what the model can exhibit",
            "the hooks are the schedule points; interleavings inside a step (e.g. between the decoder's write and its lock acquisition) are perturbed by sleeps, not enumerated",
            "cluster cache, raw->plain switch and pack slots are modelled as maps whose handles stay valid after eviction (Arc); their locks are perturbed, their histories are not replayed",
        ],
    },
    "C09": {
        "theorems": "JubakoModel.Theorems.C09",
        "harness": "c09",
        "custom": _c09.run,
        "profiles": ["debug"],
        "rule": "one case = one scenario (packaging one-file / two-files / no-concat, and one-file with a content of 5 MiB so that the output exceeds 4 MiB) x (no previous file / a previous complete container at the destination): the creation child is run once under strace to record its file-system trace (the Lean model must accept it as disciplined AND as an instance of the model's creationTrace for that packaging — the object of c09_modes / c09_creation_crash / c09_creation_error_return) and then re-run from a fresh directory once per fault point: the k-th output syscall (write, pwrite64, writev, copy_file_range, sendfile; per thread) fails with EIO, or the process is killed at its entry; error returns are injected at every output syscall of the run in both tiers, process deaths at every one in the thorough tier and at ~16 evenly spread points (incl. first/last) in the quick tier; after a death the creation is run again, undisturbed, in the directory as it was left, and must yield the complete container; after each run the destination is classified: absent / previous file byte for byte / complete (opens, expected logical dump, check true); a third family of fault points is byte offsets: with RLIMIT_FSIZE = N no output file may grow beyond N bytes, so the write crossing byte N is SHORT and the next one fails (EFBIG) — with SIGXFSZ killing the process, and with SIGXFSZ ignored (error return); N = every byte offset of the largest output file in the thorough tier (stride so that <= 4000 points, plus the last 139 bytes of every file), ~27-47 offsets (file starts, tails, check blocks, spread) in the quick tier; non-trivial = scenario with at least one fault point",
        "assumptions": [
            "crash = process termination, not power loss: rename is atomic and nothing is reordered (built into the FS model)",
            "strace fault points are whole output syscalls; failures in the middle of a write (short writes) are produced by the RLIMIT_FSIZE family only, i.e. at one byte offset per run, the same for all files of the run",
            "tempfile unlinks its temporary on drop; a killed process leaves it (stray .tmpXXXX files are allowed after a kill, not after an error return)",
        ],
    },
    "C14": {
        "disagreement_is_failure": True,
        "theorems": "JubakoModel.Theorems.C14",
        "harness": "c14",
        "sig_exclude": "^c16-",
        "profiles": ["debug"],
        "rule": "cases = (b) every entry of the committed reference corpus corpus/ref (16 entries produced by the pinned jubako fc3306d: containers in 3 packagings x {none,lz4,lzma,zstd}; directory packs with all property kinds on plain and indexed stores, variants of unequal size, a sorted store), each read by the current reader AND by the Lean decoder and compared with the recorded logical dump, directory packs additionally re-encoded byte for byte by the Lean writer model; plus (a) 12/120 fresh content packs, 25/300 fresh directory packs and 6/40 fresh containers (generators of C01/C02/C10) written by the current creator, decoded by the Lean decoder and re-encoded byte for byte by the Lean writer models; non-trivial = any corpus entry or fresh pack with content",
        "assumptions": [
            "where spec/*.rst and the code disagree (cluster header u8,u8,u16; 32-byte locator; u64 indexed-store count; entry-store tail field order) the pinned code's bytes are the reference (DESIGN appendix A)",
            "reference corpus inputs are restricted to those the pinned writer handled correctly (no D3/D4/D5/D6 shapes); container packs of the corpus declare the short size of D12 and must keep reading",
            "codec crates (lz4, xz2, zstd) called directly by the harness are the decompression oracle of the Lean decoder",
        ],
    },
}
