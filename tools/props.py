"""Per-property configuration of the check engine."""

TRUSTED_BASE = [
    "Lean 4.33.0 kernel (lake build); leanchecker re-check in the thorough tier where configured",
    "axioms: only those printed under coverage.axioms_used (allow-list propext, Classical.choice, Quot.sound)",
    "hand-written Lean model of the jubako code paths named in DESIGN.md §6 (modelled, not verified: the theorems are about the model)",
    "correspondence harness (Rust, in-process calls into /repo built from the working tree with --cfg jubako_verif), its generators and canonicalisation, and the line diff of tools/engine.py",
    "tools/extract_consts.py (regex extraction of constants into Generated/Consts.lean)",
]

PROPS = {
    "C13": {
        "theorems": "JubakoModel.Theorems.C13",
        "harness": "c13",
        "profiles": ["debug"],
        "rule": "one case = one stored content that does NOT start at offset 0 of its source (memory / file behind a 1 KiB BufReader / background-decoded lz4, lzma, zstd), driven through a seeded script of nested cuts (depth <= 3), get_slice sub-ranges (all (offset,size) pairs for the small content of round 0), stream(), as_slice().stream(), From<ByteRegion> for ByteStream and reads with arbitrary buffer sizes until EOF; non-trivial = non-empty content at a non-zero source offset; distinct = distinct (source bytes, region, script) fingerprint",
        "assumptions": [
            "out-of-range cuts are outside the property (debug_assert in the code) and are not issued",
            "the model receives the logical source bytes (whole pack file for raw clusters, concatenated contents for compressed clusters) and the absolute region computed by the harness from the insertion sizes",
            "mmap-backed sources are not reachable for content views through the public API (tables only); covered by C01/C14 runs on large tables",
        ],
    },
    "C04": {
        "theorems": "JubakoModel.Theorems.C04",
        "harness": "c04",
        "profiles": ["debug"],
        "rule": "one case = one created container (packaging x compression, seeded contents) with, for every pack of every file: pristine verdicts (per pack, per file, container-wide), every byte position of [0, checkInfoPos+37) x masks {01,80,FF} on the small containers (sampled positions x {01,FF} on larger ones), multi-byte alterations, and CRC-recomputed alterations in pack header / kind header / pack-info checked part / pack-info location / stored hash; non-trivial = at least one alteration evaluated; distinct = distinct container spec",
        "assumptions": [
            "blake3 is a parameter of the theorems (explicit-collision disjunct); the driver's own blake3 is cross-checked against the blake3 crate on every pack (op b3)",
            "verdicts are compared as true / not-true (error kinds of damaged files are compared by C05/C06)",
            "forged check blocks (kind byte downgraded to 'none' or hash replaced by the hash of the altered content, with the CRC recomputed) are deliberate re-checksumming, outside the property",
        ],
    },
}
