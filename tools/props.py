"""Per-property configuration of the check engine."""

TRUSTED_BASE = [
    "Lean 4.33.0 kernel (lake build); leanchecker re-check in the thorough tier where configured",
    "axioms: only those printed under coverage.axioms_used (allow-list propext, Classical.choice, Quot.sound)",
    "hand-written Lean model of the jubako code paths named in DESIGN.md §6 (modelled, not verified: the theorems are about the model)",
    "correspondence harness (Rust, in-process calls into /repo built from the working tree with --cfg jubako_verif), its generators and canonicalisation, and the line diff of tools/engine.py",
    "tools/extract_consts.py (regex extraction of constants into Generated/Consts.lean)",
]

PROPS = {
    "C13": {
        "theorems": "JubakoModel.Theorems.C13",
        "harness": "c13",
        "profiles": ["debug"],
        "rule": "one case = one stored content that does NOT start at offset 0 of its source (memory / file behind a 1 KiB BufReader / background-decoded lz4, lzma, zstd), driven through a seeded script of nested cuts (depth <= 3), get_slice sub-ranges (all (offset,size) pairs for the small content of round 0), stream(), as_slice().stream(), From<ByteRegion> for ByteStream and reads with arbitrary buffer sizes until EOF; non-trivial = non-empty content at a non-zero source offset; distinct = distinct (source bytes, region, script) fingerprint",
        "assumptions": [
            "out-of-range cuts are outside the property (debug_assert in the code) and are not issued",
            "the model receives the logical source bytes (whole pack file for raw clusters, concatenated contents for compressed clusters) and the absolute region computed by the harness from the insertion sizes",
            "mmap-backed sources are not reachable for content views through the public API (tables only); covered by C01/C14 runs on large tables",
        ],
    },
}
